(** internal/pkg/input/validators*.go *)
From GV Require Import Base.Str Base.Quote Base.Gerr Base.Sort Regex.Re Model.Env Model.Input Model.Semver Model.Compile.

Section WithEnv.
Variable E : env.

Definition regex_field (field v : str) (st : site) : err :=
  if site_match st v then None else leaf (field ++ s ": invalid " ++ quote v).
Definition opt_regex_field (field : str) (v : option str) (st : site) : err :=
  match v with None => None | Some x => regex_field field x st end.
(** identifiers the generated file needs for itself: same diagnostic as a value outside the grammar *)
Definition reserved_field (field : str) (v : option str) (names : list str) : err :=
  match v with Some x => if mem x names then leaf (field ++ s ": invalid " ++ quote x) else None | None => None end.
Definition unsupported (name : str) (p : prim) : err := leaf (name ++ s ": unsupported type " ++ gotype_of p).

Definition nstr (n : nat) : str := dec_of_N (N.of_nat n).

(** version *)
Definition v_version (B : str) (i : input) : err :=
  match validate_version B (i_version i) with Some m => Some (Group [] [Leaf m]) | None => None end.

(** meta *)
Definition v_meta_imports (m : meta) : err :=
  gprefix (s "imports: ")
    (flat_map (fun kv => [ (if site_match (re_in_MetaImport E) (snd kv) && negb (str_eqb (trim_both """"%char (snd kv)) (s ".")) then None else leaf (s "invalid import " ++ quote (snd kv)));
                           (if site_match (re_in_MetaImportAlias E) (fst kv) then None else leaf (s "invalid alias " ++ quote (fst kv))) ])
              (sorted_entries (m_imports m))).
Definition v_meta_functions (m : meta) : err :=
  gprefix (s "functions: ")
    (flat_map (fun kv => [ (if site_match (re_in_MetaFn E) (fst kv) then None else leaf (s "invalid function " ++ quote (fst kv)));
                           (if site_match (re_in_MetaGoFn E) (snd kv) then None else leaf (s "invalid go function " ++ quote (snd kv))) ])
              (sorted_entries (m_functions m))).
Definition v_meta (i : input) : err :=
  let m := i_meta i in
  gprefix (s "meta: ")
    [ opt_regex_field (s "pkg") (m_pkg m) (re_in_MetaPkg E);
      opt_regex_field (s "container_type") (m_container_type m) (re_in_MetaContainerType E);
      reserved_field (s "container_type") (m_container_type m) [s "rootGontainer"];
      opt_regex_field (s "container_constructor") (m_container_constructor m) (re_in_MetaContainerConstructor E);
      reserved_field (s "container_constructor") (m_container_constructor m) [s "init"; s "main"];
      v_meta_imports m; v_meta_functions m ].

(** params *)
Definition v_params (i : input) : err :=
  gprefix (s "parameters: ")
    (flat_map (fun kv => [ (if site_match (re_in_ParamName E) (fst kv) then None else leaf (quote (fst kv) ++ s ": invalid name"));
                           (if is_primitive (snd kv) then None else unsupported (quote (fst kv)) (snd kv)) ])
              (sorted_entries (i_params i))).

(** services *)
Definition is_none {A} (o : option A) : bool := match o with None => true | _ => false end.

Definition v_constructor_type (sv : service) : err :=
  gjoin [ (if is_none (sv_constructor sv) && is_none (sv_value sv) && is_none (sv_type sv)
           then leaf (s "missing constructor or value or type") else None);
          (if negb (is_none (sv_constructor sv)) && negb (is_none (sv_value sv))
           then leaf (s "cannot define constructor and value together") else None);
          (match sv_args sv with [] => None | _ => if is_none (sv_constructor sv)
                                                   then leaf (s "arguments are not empty, but constructor is missing") else None end) ].

Definition v_getter (sv : service) : err :=
  match sv_getter sv with
  | None => None
  | Some g =>
    if mem g (k_reserved_getters E) then leaf (s "getter: " ++ quote g ++ s " is reserved")
    else gjoin [ (if has_prefix (s "Must") g then leaf (s "getter: prefix ""Must"" is not allowed") else None);
                 (if has_suffix (s "InContext") g then leaf (s "getter: suffix ""InContext"" is not allowed") else None);
                 regex_field (s "getter") g (re_in_ServiceGetter E) ]
  end.

Fixpoint v_args_aux (pfx : str) (i : nat) (l : list prim) : list err :=
  match l with
  | [] => []
  | p :: l' => (if is_primitive p then None else unsupported (pfx ++ nstr i) p) :: v_args_aux pfx (S i) l'
  end.

Definition v_service_args (sv : service) : err := gprefix (s "arguments: ") (v_args_aux (s "arg ") O (sv_args sv)).

Fixpoint v_call_args (i : nat) (l : list prim) : list err :=
  match l with
  | [] => []
  | p :: l' => gprefix (s "arguments: ") [if is_primitive p then None else unsupported (nstr i) p] :: v_call_args (S i) l'
  end.
Fixpoint v_calls_aux (j : nat) (l : list call) : list err :=
  match l with
  | [] => []
  | c :: l' => gprefix (nstr j ++ s ": ") (regex_field (s "method") (c_method c) (re_in_ServiceCallName E) :: v_call_args O (c_args c))
               :: v_calls_aux (S j) l'
  end.
Definition v_calls (sv : service) : err := gprefix (s "calls: ") (v_calls_aux O (sv_calls sv)).

Definition v_fields (sv : service) : err :=
  gprefix (s "fields: ")
    (flat_map (fun kv => [ regex_field (quote (fst kv)) (fst kv) (re_in_ServiceFieldName E);
                           (if is_primitive (snd kv) then None else unsupported (quote (fst kv)) (snd kv)) ])
              (sorted_entries (sv_fields sv))).

Fixpoint v_tags_aux (i : nat) (l : list tag) : list err :=
  match l with
  | [] => []
  | t :: l' => regex_field (nstr i) (t_name t) (re_in_ServiceTag E) :: v_tags_aux (S i) l'
  end.
Fixpoint count_str (x : str) (l : list str) : nat :=
  match l with [] => O | y :: l' => (if str_eqb x y then 1 else 0) + count_str x l' end.
Fixpoint dedup (l : list str) : list str :=
  match l with [] => [] | x :: l' => if mem x l' then dedup l' else x :: dedup l' end.
Definition v_tags (sv : service) : err :=
  let names := map t_name (sv_tags sv) in
  gprefix (s "tags: ")
    (v_tags_aux O (sv_tags sv) ++
     map (fun n => if Nat.ltb 1 (count_str n names) then leaf (s "duplicate " ++ quote n) else None) (sort_strs (dedup names))).

Definition v_service (n : str) (sv : service) : err :=
  gprefix (quote n ++ s ": ")
    ((if site_match (re_in_ServiceName E) n then None else leaf (s "invalid name")) ::
     (if opt_or (sv_todo sv) false then []
      else [ v_constructor_type sv; opt_regex_field (s "constructor") (sv_constructor sv) (re_in_ServiceConstructor E);
             v_getter sv; opt_regex_field (s "type") (sv_type sv) (re_in_ServiceType E);
             opt_regex_field (s "value") (sv_value sv) (re_in_ServiceValue E);
             v_service_args sv; v_calls sv; v_fields sv; v_tags sv ])).

(** validateUniqueGetters: getters of non-todo services, grouped; a getter owned by several services is an error *)
Definition getter_owners (i : input) : list (str * str) :=
  flat_map (fun kv => if opt_or (sv_todo (snd kv)) false then []
                      else match sv_getter (snd kv) with
                           | Some (c :: g) => [(c :: g, quote (fst kv))]
                           | _ => []
                           end) (sorted_entries (i_services i)).
Definition owners_of (g : str) (l : list (str * str)) : list str :=
  map snd (filter (fun p => str_eqb (fst p) g) l).
Definition v_unique_getters (i : input) : list err :=
  let own := getter_owners i in
  map (fun g => if Nat.ltb 1 (length (owners_of g own))
                then leaf (s "getter " ++ quote g ++ s " is defined by more than one service: " ++ join (s ", ") (owners_of g own))
                else None)
      (sort_strs (dedup (map fst own))).

Definition v_services (i : input) : err :=
  gprefix (s "services: ")
    (map (fun kv => v_service (fst kv) (snd kv)) (sorted_entries (i_services i)) ++ v_unique_getters i).

(** decorators *)
Fixpoint v_decorators_aux (j : nat) (l : list decorator) : list err :=
  match l with
  | [] => []
  | d :: l' =>
    gprefix (nstr j ++ s " " ++ quote (d_decorator d) ++ s ": ")
      [ regex_field (s "tag") (d_tag d) (re_in_DecoratorsTag E);
        regex_field (s "method") (d_decorator d) (re_in_DecoratorMethod E);
        gprefix (s "arguments: ") (v_args_aux [] O (d_args d)) ]
    :: v_decorators_aux (S j) l'
  end.
Definition v_decorators (i : input) : err := gprefix (s "decorators: ") (v_decorators_aux O (i_decorators i)).

(** NewDefaultValidator(B).Validate, then StepValidateInput *)
Definition validate (B : str) (i : input) : err :=
  gjoin [v_version B i; v_meta i; v_params i; v_services i; v_decorators i].

Definition step_validate (B : str) (i : input) : err :=
  gprefix (s "compiler.StepValidateInput: ") [validate B i].

End WithEnv.
