(** internal/cmd/runner + cmd_build.go: the whole `gontainer build` command as a function. *)
From GV Require Import Base.Str Base.Quote Base.Gerr Base.Sort Regex.Re Model.Env Model.Input Model.Merge
  Model.Imports Model.Token Model.Compile Model.Validate Model.OutVal.

Record flags := { f_ignore_params : bool; f_ignore_services : bool; f_quiet : bool; f_stub : bool }.

(** what the file system and the external libraries answer (oracles, supplied by the harness from the real run) *)
Inductive file_result := FReadErr (msg : str) | FYamlErr (msg : str) | FInput (i : input).
Record glob_result := { gl_pattern : str;
                         gl_goquoted : str;     (* strconv.Quote of the pattern (fmt %#v keeps printable non-ASCII runes): oracle, Go's unicode tables are not modelled *)
                         gl_err : option str; gl_matches : list str (* cleaned, in glob order *) }.
Record world := {
  wd_globs : list glob_result;                  (* one per -i pattern, in order *)
  wd_files : list (str * file_result);          (* by cleaned path *)
  wd_build_err : option str;                    (* text/template + go/format + goimports failure, if any *)
  wd_write_err : option str                     (* os.WriteFile failure, if any *)
}.

(** Printer calls are recorded as events (the steps only ever append to the report, they never read it);
    [render] replays them on the printer state: indent stack + lines printed so far (reversed). *)
Inductive event :=
| EvLine (x : str)                          (* Println *)
| EvAligned (left right extra : str)        (* PrintAlignedLn *)
| EvIndent (x : str)                        (* Indent *)
| EvEndIndent.                              (* EndIndent *)

Record pst := { p_indents : list str; p_lines : list str }.
Definition p0 : pst := {| p_indents := []; p_lines := [] |}.
Definition println (x : str) (p : pst) : pst :=
  {| p_indents := p_indents p; p_lines := (concat (p_indents p) ++ x) :: p_lines p |}.
Definition indent (x : str) (p : pst) : pst := {| p_indents := p_indents p ++ [x]; p_lines := p_lines p |}.
(** EndIndent on an empty stack panics in Go (slice bounds) *)
Definition end_indent (p : pst) : option pst :=
  match p_indents p with
  | [] => None
  | l => Some {| p_indents := removelast l; p_lines := p_lines p |}
  end.

Inductive res (A : Type) := Ok (a : A) | Panic (site : str).
Arguments Ok {A}. Arguments Panic {A}.

Section WithEnv.
Variable E : env.

Definition dot : str := bs [194; 183]%N.   (* "·" *)

(** PrintAlignedLn: strings.Repeat panics on a negative count *)
Definition print_aligned (left right : str) (extra : str) (p : pst) : res pst :=
  let used := rune_count (left ++ right ++ concat (p_indents p)) in
  if Nat.ltb (k_row_width E) used then Panic (s "strings.Repeat: negative count in PrintAlignedLn")
  else Ok (println (left ++ repeat_str dot (k_row_width E - used) ++ right ++ extra) p).

(** ** StepReadConfig *)
Definition file_lookup (w : world) (f : str) : file_result :=
  match lookup f (wd_files w) with Some r => r | None => FReadErr (s "open " ++ f ++ s ": no such file or directory") end.

(** reading is computed purely: merged input, errors, and the report lines (printed afterwards, in order) *)
Record rstate := { r_input : input; r_found : bool; r_processed : list (str * list str); r_errs : list err; r_lines : list str }.

Definition add_processed (f p : str) (l : list (str * list str)) : list (str * list str) :=
  match lookup f l with
  | Some ps => map (fun kv => if str_eqb (fst kv) f then (f, ps ++ [p]) else kv) l
  | None => l ++ [(f, [p])]
  end.

Definition bullet : str := bs [226;128;162]%N.   (* "•" *)
Definition file_line (f mark : str) : str := s "   " ++ bullet ++ s " " ++ f ++ s " " ++ mark.

Definition read_file (w : world) (pat : str) (st : rstate) (f : str) : rstate :=
  match file_lookup w f with
  | FReadErr m =>
      {| r_input := r_input st; r_found := r_found st; r_processed := r_processed st;
         r_errs := r_errs st ++ [gprefix (s "`" ++ f ++ s "`: ") [gprefix (s "could not read the file: ") [leaf m]]];
         r_lines := r_lines st ++ [file_line f (k_xmark E)] |}
  | FYamlErr m =>
      {| r_input := r_input st; r_found := r_found st; r_processed := r_processed st;
         r_errs := r_errs st ++ [gprefix (s "`" ++ f ++ s "`: ") [gprefix (s "parsing yaml: ") [leaf m]]];
         r_lines := r_lines st ++ [file_line f (k_xmark E)] |}
  | FInput i =>
      {| r_input := merge (r_input st) i; r_found := true; r_processed := add_processed f pat (r_processed st);
         r_errs := r_errs st ++ [None];
         r_lines := r_lines st ++ [file_line f (k_check E)] |}
  end.

(** findFiles: cleaned matches in byte order, or the glob error *)
Definition pattern_files (g : glob_result) : list str :=
  match gl_err g with Some _ => [] | None => sort_strs (gl_matches g) end.

Definition read_pattern (w : world) (st : rstate) (jg : nat * glob_result) : rstate :=
  let '(j, g) := jg in
  let files := pattern_files g in
  let gerr_ := match gl_err g with
               | Some m => gprefix (s "pattern: " ++ quote (gl_pattern g) ++ s ": ") [leaf m]
               | None => None end in
  fold_left (read_file w (gl_goquoted g))
            files
            {| r_input := r_input st; r_found := r_found st; r_processed := r_processed st;
               r_errs := r_errs st ++ [gerr_];
               r_lines := r_lines st ++ [dec_of_N (N.of_nat (S j)) ++ s ". " ++ gl_pattern g]
                          ++ match files with [] => [s "   No files"] | _ => [] end |}.

(** fmt.Sprintf("%#v", []string) without the "[]string" prefix *)
Definition patterns_lit (l : list str) : str := s "{" ++ join (s ", ") l ++ s "}".   (* the elements are already quoted: [gl_goquoted] *)

Definition read_config (w : world) (i : input) : (input * err) * list str :=
  match wd_globs w with
  | [] => ((i, gprefix (s "runner.StepReadConfig: ") [leaf (s "missing file patterns")]), [])
  | globs =>
    let st0 := {| r_input := i; r_found := false; r_processed := []; r_errs := []; r_lines := [s "Patterns"] |} in
    let st := fold_left (read_pattern w) (combine (seq 0 (length globs)) globs) st0 in
    let e_found := if r_found st then [] else [leaf (s "could not process any files")] in
    let e_dup := map (fun kv => leaf (s "file " ++ quote (fst kv) ++ s " matches more than one pattern: " ++ patterns_lit (snd kv)))
                     (filter (fun kv => Nat.ltb 1 (length (snd kv))) (sorted_entries (r_processed st))) in
    ((r_input st, gprefix (s "runner.StepReadConfig: ") [gjoin (r_errs st ++ e_found ++ e_dup)]), r_lines st)
  end.

(** ** StepCompile: compiler.Compile stops at the first failing step *)
Definition cstep (B : str) (k : cstep_kind) (i : input) (o : output) (c : cst) : (output * err) * cst :=
  match k with
  | CValidate => ((o, step_validate E B i), c)
  | CMeta => step_meta E i o c
  | CParams => step_params E i o c
  | CServices => step_services E i o c
  | CDecorators => step_decorators E i o c
  end.

Fixpoint compile_steps (B : str) (ks : list cstep_kind) (i : input) (o : output) (c : cst) : (output * err) * cst :=
  match ks with
  | [] => ((o, None), c)
  | k :: ks' =>
    let '((o1, e), c1) := cstep B k i o c in
    match e with
    | Some _ => ((o1, e), c1)
    | None => compile_steps B ks' i o1 c1
    end
  end.

Definition compile (B : str) (i : input) : (output * err) * cst :=
  compile_steps B (w_compiler_steps E) i empty_output {| cs_imports := ist0; cs_fns := [] |}.

(** ** the run *)
Record run_state := { x_input : input; x_output : output; x_cst : cst; x_wrote : bool }.

Definition is_active (fl : flags) (sw : switch) : bool :=
  match sw with
  | SwAlways => true
  | SwIgnoreParams => negb (f_ignore_params fl)
  | SwIgnoreServices => negb (f_ignore_services fl)
  | SwBoth => negb (f_ignore_params fl) && negb (f_ignore_services fl)
  | SwNever => false
  end.

Definition count_suffix (e : gerr) : str :=
  let n := length (collection e) in
  s " (" ++ dec_of_N (N.of_nat n) ++ (if Nat.ltb 1 n then s " errors)" else s " error)").

(** StepVerboseSwitchable.Run around an inner action: result, error, printer events *)
Definition verbose {S} (name : str) (active : bool) (inner : S -> (S * err) * list event) (st : S) : (S * err) * list event :=
  if negb active then
    ((st, None), [EvAligned name [] []; EvAligned (name ++ s " END") (s "ignored") []])
  else
    let '((st1, e), evs) := inner st in
    ((st1, e),
     [EvAligned name [] []; EvIndent (s "  ")] ++ evs ++
     [EvEndIndent;
      match e with
      | None => EvAligned (name ++ s " END") (k_check E) []
      | Some g => EvAligned (name ++ s " END") (k_xmark E) (count_suffix g)
      end]).

Definition rule_run (k : rule_kind) (o : output) : err :=
  match k with
  | VScopes => validate_scopes o
  | VCircular => validate_circular o
  | VParamsExist => validate_params_exist o
  | VServicesExist => validate_services_exist o
  end.

(** StepAmalgamated: every sub-step runs, errors are joined *)
Fixpoint amalgamated (fl : flags) (rules : list (str * rule_kind * switch)) (st : run_state) (acc : list err) (evs : list event)
  : (run_state * err) * list event :=
  match rules with
  | [] => ((st, gjoin acc), evs)
  | (n, k, sw) :: rules' =>
    let '((st1, e), ev1) := verbose n (is_active fl sw) (fun st' => ((st', rule_run k (x_output st')), [])) st in
    amalgamated fl rules' st1 (acc ++ [e]) (evs ++ ev1)
  end.

Definition builtin_input (i : input) : input :=
  {| i_version := i_version i;
     i_meta := {| m_pkg := m_pkg (i_meta i); m_container_type := m_container_type (i_meta i);
                  m_container_constructor := m_container_constructor (i_meta i);
                  m_default_must_getter := m_default_must_getter (i_meta i); m_imports := m_imports (i_meta i);
                  m_functions := k_builtin_funcs E |};
     i_params := i_params i; i_services := i_services i; i_decorators := i_decorators i |}.

Definition step_inner (B : str) (fl : flags) (w : world) (outfile : str) (k : rstep_kind) (st : run_state)
  : (run_state * err) * list event :=
  match k with
  | RDefaultInput =>
      (({| x_input := builtin_input (x_input st); x_output := x_output st; x_cst := x_cst st; x_wrote := x_wrote st |}, None), [])
  | RReadConfig =>
      let '((i, e), lines) := read_config w (x_input st) in
      (({| x_input := i; x_output := x_output st; x_cst := x_cst st; x_wrote := x_wrote st |}, e), map EvLine lines)
  | RCompile =>
      let '((o, e), c) := compile B (x_input st) in
      (({| x_input := x_input st; x_output := o; x_cst := c; x_wrote := x_wrote st |}, e), [])
  | RAmalgamated rules => amalgamated fl rules st [] []
  | RCodeGen =>
      match wd_build_err w with
      | Some m => ((st, leaf m), [EvLine (s "Generating source code")])
      | None =>
        let evs := [EvLine (s "Generating source code"); EvLine (s "Printing to the file `" ++ outfile ++ s "`")] in
        match wd_write_err w with
        | Some m => ((st, leaf m), evs)
        | None => (({| x_input := x_input st; x_output := x_output st; x_cst := x_cst st; x_wrote := true |}, None), evs)
        end
      end
  end.

(** Runner.Run: stop at the first failing step *)
Fixpoint run_steps (B : str) (fl : flags) (w : world) (outfile : str) (steps : list rstep) (st : run_state) (evs : list event)
  : (run_state * err) * list event :=
  match steps with
  | [] => ((st, None), evs)
  | sp :: steps' =>
    let '((st1, e), ev1) := verbose (rs_name sp) (is_active fl (rs_switch sp)) (step_inner B fl w outfile (rs_kind sp)) st in
    match e with
    | Some _ => ((st1, e), evs ++ ev1)
    | None => run_steps B fl w outfile steps' st1 (evs ++ ev1)
    end
  end.

(** the printer: replay the events *)
Definition render_event (p : pst) (ev : event) : res pst :=
  match ev with
  | EvLine x => Ok (println x p)
  | EvAligned l r x => print_aligned l r x p
  | EvIndent x => Ok (indent x p)
  | EvEndIndent => match end_indent p with Some p' => Ok p' | None => Panic (s "EndIndent on an empty stack") end
  end.
Fixpoint render (evs : list event) (p : pst) : res pst :=
  match evs with
  | [] => Ok p
  | ev :: evs' => match render_event p ev with Ok p' => render evs' p' | Panic m => Panic m end
  end.

Record outcome := { oc_exit : nat; oc_stdout : list str; oc_wrote : bool; oc_state : run_state; oc_errors : list str }.

Definition numbered (l : list str) : list str :=
  map (fun ke => dec_of_N (N.of_nat (S (fst ke))) ++ s ". " ++ snd ke) (combine (seq 0 (length l)) l).

Definition st0 : run_state :=
  {| x_input := empty_input; x_output := empty_output; x_cst := {| cs_imports := ist0; cs_fns := [] |}; x_wrote := false |}.

(** the command without its printing *)
Definition run_core (B : str) (fl : flags) (w : world) (outfile : str) : (run_state * err) * list event :=
  run_steps B fl w outfile (w_runner E) st0 [].

(** cmd_build.go RunE + main: exit status and everything printed *)
Definition run (B : str) (fl : flags) (w : world) (outfile : str) : res outcome :=
  let '((st, e), evs) := run_core B fl w outfile in
  match render evs p0 with
  | Panic m => Panic m
  | Ok p =>
    let report := rev (p_lines p) in
    match e with
    | None => Ok {| oc_exit := 0; oc_stdout := if f_quiet fl then [] else report; oc_wrote := x_wrote st; oc_state := st; oc_errors := [] |}
    | Some g =>
      let errs := collection g in
      Ok {| oc_exit := 1; oc_stdout := if f_quiet fl then [] else report ++ [s "Errors:"] ++ numbered errs;
            oc_wrote := x_wrote st; oc_state := st; oc_errors := errs |}
    end
  end.

End WithEnv.
