(** Everything the model takes from the source tree: regenerated into Gen/ on every run and passed around as [env]. *)
From GV Require Import Base.Str Base.Quote Regex.Re.

Inductive resolver_kind := RNonString | RValue | RService | RTagged | RFixed (id value : str) | RPattern.
Inductive factory_kind := FPercent | FReference | FUnexpectedFunction | FUnexpectedToken | FString.
Inductive cstep_kind := CValidate | CMeta | CParams | CServices | CDecorators.
(** runner wiring: which output rule a sub-step runs and which command-line flag switches it *)
Inductive rule_kind := VScopes | VCircular | VParamsExist | VServicesExist.
Inductive switch := SwAlways | SwIgnoreParams | SwIgnoreServices | SwBoth | SwNever.
Inductive rstep_kind := RDefaultInput | RReadConfig | RCompile | RAmalgamated (rules : list (str * rule_kind * switch)) | RCodeGen.
Record rstep := { rs_name : str; rs_kind : rstep_kind; rs_switch : switch }.

Record env := {
  (* input validators *)
  re_in_ServiceName : site; re_in_ServiceGetter : site; re_in_ServiceType : site; re_in_ServiceValue : site;
  re_in_ServiceConstructor : site; re_in_ServiceCallName : site; re_in_ServiceFieldName : site; re_in_ServiceTag : site;
  re_in_ParamName : site; re_in_DecoratorsTag : site; re_in_DecoratorMethod : site; re_in_MetaPkg : site;
  re_in_MetaContainerType : site; re_in_MetaContainerConstructor : site; re_in_MetaImport : site;
  re_in_MetaImportAlias : site; re_in_MetaFn : site; re_in_MetaGoFn : site;
  (* compiler *)
  re_co_DecoratorMethod : site; re_co_MetaGoFn : site; re_co_ServiceType : site; re_co_ServiceConstructor : site;
  (* syntax *)
  re_sy_ServiceValue : site;
  (* resolver *)
  re_rs_servicePrefix : site; re_rs_service : site; re_rs_taggedPrefix : site; re_rs_tagged : site;
  re_rs_valuePrefix : site; re_rs_value : site;
  (* token *)
  re_tk_TokenRef : site; re_tk_SimpleFn : site;
  (* constants *)
  k_helper_path : str;
  k_tpl_dep_service : str; k_tpl_dep_tag : str; k_tpl_dep_value : str; k_tpl_dep_provider : str; k_tpl_dep_concat : str;
  k_tpl_tok_getparam : str; k_tpl_tok_provider : str;
  k_delim : ascii;
  k_default_pkg : str; k_default_type : str; k_default_ctor : str; k_default_must : bool;
  k_builtin_funcs : list (str * str);          (* env -> getEnv, ... as StepDefaultInput installs them *)
  k_reserved_getters : list str;
  k_row_width : nat; k_check : str; k_xmark : str;
  (* wiring of the self-generated container *)
  w_arg_chain : list resolver_kind;
  w_param_chain : list resolver_kind;
  w_factories : list factory_kind;
  w_compiler_steps : list cstep_kind;
  w_runner : list rstep
}.

(** the rest of a format string after its single verb: only %% escapes remain *)
Fixpoint rest_percent (tpl : str) : str :=
  match tpl with
  | "%"%char :: "%"%char :: rest => "%"%char :: rest_percent rest
  | c :: rest => c :: rest_percent rest
  | [] => []
  end.

(** fmt.Sprintf(tpl, arg) for a template with a single %s or %+q verb (and %% escapes) *)
Fixpoint fmt1 (tpl : str) (arg : str) : str :=
  match tpl with
  | "%"%char :: "s"%char :: rest => arg ++ rest_percent rest
  | "%"%char :: "+"%char :: "q"%char :: rest => quote arg ++ rest_percent rest
  | "%"%char :: "%"%char :: rest => "%"%char :: fmt1 rest arg
  | c :: rest => c :: fmt1 rest arg
  | [] => []
  end.
