(** internal/pkg/token: chunker, token factories, tokenizer, GoCode. *)
From GV Require Import Base.Str Base.Quote Base.Gerr Regex.Re Model.Env Model.Imports.

Section WithEnv.
Variable E : env.

(** Chunker.Chunks on a non-empty string.  [opened] = inside a %...% token, [buff] = current buffer (reversed) *)
Fixpoint chunks_aux (x : str) (opened : bool) (buff : str) (acc : list str) : list str + str :=
  match x with
  | [] => if opened then inr (rev buff)
          else inl (rev (match buff with [] => acc | _ => rev buff :: acc end))
  | c :: x' =>
    if Ascii.eqb c (k_delim E) then
      if opened then chunks_aux x' false [] (rev (c :: buff) :: acc)
      else chunks_aux x' true [c] (match buff with [] => acc | _ => rev buff :: acc end)
    else chunks_aux x' opened (c :: buff) acc
  end.

(** returns the chunk list or the unterminated buffer *)
Definition chunks (x : str) : list str + str :=
  match x with
  | [] => inl [[]]
  | _ => chunks_aux x false [] []
  end.

(** toExpr: strip the surrounding delimiters *)
Definition to_expr (x : str) : option str :=
  match x with
  | c :: rest =>
    match rev rest with
    | d :: mid => if Ascii.eqb c (k_delim E) && Ascii.eqb d (k_delim E) then Some (rev mid) else None
    | [] => None
    end
  | [] => None
  end.

Record token := { tk_raw : str; tk_depends : list str; tk_code : str }.

(** a registered function factory (FactoryFunction): fn alias, Go import, Go function *)
Record fnfact := { ff_fn : str; ff_import : str; ff_gofn : str }.

Definition simplefn (e : str) : option (str * str) :=
  match site_submatch (re_tk_SimpleFn E) e with
  | Some c => Some (sub (re_tk_SimpleFn E) c (s "fn"), sub (re_tk_SimpleFn E) c (s "params"))
  | None => None
  end.

Definition ff_supports (f : fnfact) (x : str) : bool :=
  match to_expr x with
  | Some e => match simplefn e with Some (fn, _) => str_eqb fn (ff_fn f) | None => false end
  | None => false
  end.

Definition export_str (x : str) : str := quote x.

(** FactoryFunction.Create *)
Definition ff_create (f : fnfact) (x : str) (st : ist) : token * ist :=
  let e := match to_expr x with Some e => e | None => [] end in
  let params := match simplefn e with Some (_, p) => p | None => [] end in
  let '(gofn, st1) := match ff_import f with
                      | [] => (ff_gofn f, st)
                      | imp => let '(a, st') := alias st imp in (a ++ s "." ++ ff_gofn f, st')
                      end in
  let '(fmta, st2) := alias_abs st1 (s "fmt") in
  let callfn := s "callProvider(" ++ gofn ++ (match params with [] => [] | _ => s ", " ++ params end) ++ s ")" in
  let body := s "r, err = " ++ callfn ++ s "; if err != nil { err = " ++ fmta ++ s ".Errorf(""%s: %w"", "
              ++ export_str (s "cannot execute " ++ x) ++ s ", err) }; return" in
  ({| tk_raw := x; tk_depends := []; tk_code := fmt1 (k_tpl_tok_provider E) body |}, st2).

Definition fk_supports (k : factory_kind) (x : str) : bool :=
  match k with
  | FPercent => str_eqb x [k_delim E; k_delim E]
  | FReference => match to_expr x with Some e => site_match (re_tk_TokenRef E) e | None => false end
  | FUnexpectedFunction => match to_expr x with Some e => site_match (re_tk_SimpleFn E) e | None => false end
  | FUnexpectedToken => match to_expr x with Some _ => true | None => false end
  | FString => true
  end.

Definition fk_create (k : factory_kind) (x : str) : token + str :=
  match k with
  | FPercent => inl {| tk_raw := s "%%"; tk_depends := []; tk_code := fmt1 (k_tpl_tok_provider E) (s "return ""%"", nil") |}
  | FReference =>
      let ref := match to_expr x with Some e => e | None => [] end in
      inl {| tk_raw := x; tk_depends := [ref]; tk_code := fmt1 (k_tpl_tok_getparam E) ref |}
  | FUnexpectedFunction =>
      let e := match to_expr x with Some e => e | None => [] end in
      let fn := match simplefn e with Some (fn, _) => fn | None => [] end in
      inr (s "unexpected function: " ++ quote fn ++ s ": " ++ quote x)
  | FUnexpectedToken => inr (s "unexpected token: " ++ quote x)
  | FString => inl {| tk_raw := x; tk_depends := []; tk_code := fmt1 (k_tpl_tok_provider E) (s "return " ++ export_str x ++ s ", nil") |}
  end.

(** the factory list: registered functions (most recently registered first) followed by the wired static factories *)
Fixpoint create_fn (fns : list fnfact) (x : str) (st : ist) : option (token * ist) :=
  match fns with
  | [] => None
  | f :: fns' => if ff_supports f x then Some (ff_create f x st) else create_fn fns' x st
  end.

Fixpoint create_static (ks : list factory_kind) (x : str) : token + str :=
  match ks with
  | [] => inr (s "not supported token: " ++ x)
  | k :: ks' => if fk_supports k x then fk_create k x else create_static ks' x
  end.

Definition empty_token : token := {| tk_raw := []; tk_depends := []; tk_code := [] |}.

Definition create (fns : list fnfact) (x : str) (st : ist) : (token * err) * ist :=
  match create_fn fns x st with
  | Some (t, st') => ((t, None), st')
  | None => match create_static (w_factories E) x with
            | inl t => ((t, None), st)
            | inr m => ((empty_token, leaf m), st)
            end
  end.

Fixpoint create_all (fns : list fnfact) (cs : list str) (st : ist) : (list token * list err) * ist :=
  match cs with
  | [] => (([], []), st)
  | c :: cs' =>
    let '((t, e), st1) := create fns c st in
    let '((ts, es), st2) := create_all fns cs' st1 in
    ((t :: ts, e :: es), st2)
  end.

(** Tokenizer.Tokenize *)
Definition tokenize (fns : list fnfact) (x : str) (st : ist) : (list token * err) * ist :=
  match chunks x with
  | inr buff => (([], leaf (s "not closed token: " ++ quote buff)), st)
  | inl cs => let '((ts, es), st') := create_all fns cs st in ((ts, gjoin es), st')
  end.

(** Tokens.GoCode *)
Definition go_code (ts : list token) : str + str :=
  match ts with
  | [] => inr (s "unexpected error: len(tokens) == 0")
  | [t] => inl (fmt1 (k_tpl_dep_provider E) (tk_code t))
  | _ => inl (fmt1 (k_tpl_dep_concat E) (join (s ", ") (map tk_code ts)))
  end.

End WithEnv.
