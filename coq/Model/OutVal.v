(** internal/pkg/output: dependency graph (with the node numbering of gontainer-helpers/graph), transitive
    dependencies, elementary cycles (gonum's DirectedCyclesIn is modelled by a plain enumeration), the four validators. *)
From GV Require Import Base.Str Base.Quote Base.Gerr Base.Sort Model.Input Model.Compile.

(** ** graph with creation-order node numbers; a [None] name is the hidden node of the self-edge workaround *)
Record graph := { g_nodes : list (option str); g_edges : list (nat * nat) }.
Definition g0 : graph := {| g_nodes := []; g_edges := [] |}.

Fixpoint index_of (n : str) (l : list (option str)) (i : nat) : option nat :=
  match l with
  | [] => None
  | Some m :: l' => if str_eqb n m then Some i else index_of n l' (S i)
  | None :: l' => index_of n l' (S i)
  end.

Definition node_of (n : str) (g : graph) : graph * nat :=
  match index_of n (g_nodes g) O with
  | Some i => (g, i)
  | None => ({| g_nodes := g_nodes g ++ [Some n]; g_edges := g_edges g |}, length (g_nodes g))
  end.

Definition has_edge (e : nat * nat) (l : list (nat * nat)) : bool :=
  existsb (fun x => Nat.eqb (fst x) (fst e) && Nat.eqb (snd x) (snd e)) l.
Definition set_edge (e : nat * nat) (g : graph) : graph :=
  if has_edge e (g_edges g) then g else {| g_nodes := g_nodes g; g_edges := g_edges g ++ [e] |}.

Definition add_dep (from to : str) (g : graph) : graph :=
  let '(g1, f) := node_of from g in
  let '(g2, t) := node_of to g1 in
  if Nat.eqb f t then
    let tmp := length (g_nodes g2) in
    let g3 := {| g_nodes := g_nodes g2 ++ [None]; g_edges := g_edges g2 |} in
    set_edge (tmp, t) (set_edge (f, tmp) g3)
  else set_edge (f, t) g2.

Definition id_service (n : str) := s "service(" ++ n ++ s ")".
Definition id_param (n : str) := s "param(" ++ n ++ s ")".
Definition id_tag (n : str) := s "tag(" ++ n ++ s ")".
Definition id_decorate (n : str) := s "decorate(" ++ n ++ s ")".
Definition id_decorator (i : nat) := s "decorator(#" ++ dec_of_N (N.of_nat i) ++ s ")".

Definition all_args (sv : oservice) : list arg :=
  os_args sv ++ flat_map oc_args (os_calls sv) ++ map snd (os_fields sv).

Definition add_deps (from : str) (tos : list str) (g : graph) : graph := fold_left (fun g t => add_dep from t g) tos g.

Definition graph_service (g : graph) (sv : oservice) : graph :=
  let sid := id_service (os_name sv) in
  let g1 := fold_left (fun g t => add_dep sid (id_decorate (t_name t)) (add_dep (id_tag (t_name t)) sid g)) (os_tags sv) g in
  let args := all_args sv in
  let g2 := add_deps sid (map id_service (flat_map a_services args)) g1 in
  let g3 := add_deps sid (map id_tag (flat_map a_tags args)) g2 in
  add_deps sid (map id_param (flat_map a_params args)) g3.

Fixpoint graph_decorators (j : nat) (l : list odecorator) (g : graph) : graph :=
  match l with
  | [] => g
  | d :: l' =>
    let did := id_decorator j in
    let g1 := add_dep (id_decorate (od_tag d)) did g in
    let g2 := add_deps did (map id_service (flat_map a_services (od_args d))) g1 in
    let g3 := add_deps did (map id_tag (flat_map a_tags (od_args d))) g2 in
    graph_decorators (S j) l' (add_deps did (map id_param (flat_map a_params (od_args d))) g3)
  end.

Definition graph_params (l : list oparam) (g : graph) : graph :=
  fold_left (fun g p => add_deps (id_param (op_name p)) (map id_param (op_depends p)) g) l g.

(** Output.BuildDependencyGraph *)
Definition build_graph (o : output) : graph :=
  graph_params (o_params o) (graph_decorators O (o_decorators o) (fold_left graph_service (o_services o) g0)).

Definition succs (g : graph) (n : nat) : list nat :=
  map snd (filter (fun e => Nat.eqb (fst e) n) (g_edges g)).

Definition nmem (n : nat) (l : list nat) : bool := existsb (Nat.eqb n) l.

(** ** reachability: nodes reachable from [frontier] (fuel = number of nodes + 1 rounds of a worklist) *)
Fixpoint reach (g : graph) (fuel : nat) (frontier seen : list nat) : list nat :=
  match fuel with
  | O => seen
  | S f =>
    match frontier with
    | [] => seen
    | n :: rest =>
      let new := filter (fun m => negb (nmem m seen)) (succs g n) in
      let new := fold_right (fun m acc => if nmem m acc then acc else m :: acc) [] new in
      reach g f (rest ++ new) (seen ++ new)
    end
  end.

Definition reachable_from (g : graph) (n : nat) : list nat :=
  reach g (S (length (g_nodes g) * S (length (g_nodes g)))) [n] [].

Definition node_name (g : graph) (n : nat) : option str := match nth_error (g_nodes g) n with Some o => o | None => None end.

(** dependencyGraph.Deps(serviceID): names of everything reachable, itself excluded, sorted *)
Definition deps_of (g : graph) (id : str) : list str :=
  let '(g1, n) := node_of id g in
  sort_strs (keep_some (map (fun m => if Nat.eqb m n then None else node_name g1 m) (reachable_from g1 n))).

(** ** elementary cycles rooted at their smallest node *)
Fixpoint cycles_from (g : graph) (fuel : nat) (root cur : nat) (path : list nat) : list (list nat) :=
  match fuel with
  | O => []
  | S f =>
    flat_map (fun m =>
                if Nat.eqb m root then [rev (root :: path)]
                else if Nat.ltb root m && negb (nmem m path) then cycles_from g f root m (m :: path)
                else []) (succs g cur)
  end.

Fixpoint lex_lt (a b : list nat) : bool :=
  match a, b with
  | [], [] => false
  | [], _ :: _ => true
  | _ :: _, [] => false
  | x :: a', y :: b' => if Nat.eqb x y then lex_lt a' b' else Nat.ltb x y
  end.

Definition all_cycles (g : graph) : list (list nat) :=
  let n := length (g_nodes g) in
  sort_by lex_lt (flat_map (fun r => cycles_from g (S n) r r [r]) (seq 0 n)).

(** ids of a cycle, hidden nodes dropped *)
Definition cycle_ids (g : graph) (c : list nat) : list str := keep_some (map (node_name g) c).

(** pretty names and normalizeCycle *)
Definition is_service_id (id : str) : bool := has_prefix (s "service(") id.
(** text between the first "(" and the final ")" *)
Fixpoint drop_to_paren (x : str) : str :=
  match x with [] => [] | c :: x' => if Ascii.eqb c "("%char then x' else drop_to_paren x' end.
Definition resource_of (id : str) : str := removelast (drop_to_paren id).
Definition pretty (id : str) : str :=
  let r := resource_of id in
  if has_prefix (s "service(") id then s "@" ++ r
  else if has_prefix (s "param(") id then s "%" ++ r ++ s "%"
  else if has_prefix (s "tag(") id then s "!tagged " ++ r
  else if has_prefix (s "decorate(") id then s "decorate(!tagged " ++ r ++ s ")"
  else id.

Fixpoint first_service (l : list str) (i : nat) : nat :=
  match l with
  | [] => O
  | x :: l' => if is_service_id x then i else first_service l' (S i)
  end.
Fixpoint lowest_service (l : list str) (i : nat) (best : nat) (bestname : str) : nat :=
  match l with
  | [] => best
  | x :: l' =>
    if is_service_id x && str_ltb (resource_of x) bestname
    then lowest_service l' (S i) i (resource_of x)
    else lowest_service l' (S i) best bestname
  end.
(** one rotation step of normalizeCycle: cycle = append(cycle[1:], cycle[1]) *)
Definition rot1 (l : list str) : list str :=
  match l with
  | _ :: (y :: _) as t => t ++ [y]
  | _ => l
  end.
Definition normalize_cycle (c : list str) : list str :=
  let f := first_service c O in
  let low := lowest_service c O f (match nth_error c f with Some x => resource_of x | None => [] end) in
  Nat.iter low rot1 c.

Definition cycle_errors (o : output) : list str :=
  let g := build_graph o in
  map (fun c => join (s " -> ") (map pretty (normalize_cycle (cycle_ids g c)))) (all_cycles g).

Definition validate_circular (o : output) : err :=
  gprefix (s "output.ValidateCircularDeps: ") [gjoin (map leaf (cycle_errors o))].

(** ** scopes *)
Definition find_service (o : output) (n : str) : option oservice :=
  find (fun sv => str_eqb (os_name sv) n) (rev (o_services o)).
Definition is_contextual (o : output) (n : str) : bool :=
  match find_service o n with Some sv => match os_scope sv with OScContextual => true | _ => false end | None => false end.

Definition scope_errors_of (o : output) (g : graph) (sv : oservice) : list err :=
  match os_scope sv with
  | OScShared =>
    map (fun id => leaf (quote (os_name sv) ++ s ": service is shared, but dependant " ++ quote (resource_of id) ++ s " is contextual"))
        (filter (fun id => is_service_id id && is_contextual o (resource_of id)) (deps_of g (id_service (os_name sv))))
  | _ => []
  end.
Definition validate_scopes (o : output) : err :=
  let g := build_graph o in
  gprefix (s "output.ValidateServicesScopes: ")
    (flat_map (scope_errors_of o g) (sort_by (fun a b => str_ltb (os_name a) (os_name b)) (o_services o))).

(** ** existence *)
Definition pnames (o : output) : list str := map op_name (o_params o).
Definition snames (o : output) : list str := map os_name (o_services o).

Definition missing (declared : list str) (l : list str) : list str := filter (fun n => negb (mem n declared)) l.

Definition validate_params_exist (o : output) : err :=
  gprefix (s "output.ValidateParamsExist: ")
    (flat_map (fun p => map (fun n => leaf (quote (s "%" ++ op_name p ++ s "%") ++ s ": param " ++ quote n ++ s " does not exist"))
                            (missing (pnames o) (op_depends p))) (o_params o)
     ++ flat_map (fun sv => map (fun n => leaf (quote (s "@" ++ os_name sv) ++ s ": param " ++ quote n ++ s " does not exist"))
                                (missing (pnames o) (flat_map a_params (all_args sv)))) (o_services o)
     ++ concat (map (fun jd => map (fun n => leaf (s "decorator(#" ++ dec_of_N (N.of_nat (fst jd)) ++ s ", " ++ quote (od_tag (snd jd))
                                                    ++ s "): param " ++ quote n ++ s " does not exist"))
                                   (missing (pnames o) (flat_map a_params (od_args (snd jd)))))
                    (combine (seq 0 (length (o_decorators o))) (o_decorators o)))).

Definition validate_services_exist (o : output) : err :=
  gprefix (s "output.ValidateServicesExist: ")
    (flat_map (fun sv => map (fun n => leaf (quote (os_name sv) ++ s ": service " ++ quote n ++ s " does not exist"))
                             (missing (snames o) (flat_map a_services (all_args sv)))) (o_services o)
     ++ concat (map (fun jd => map (fun n => leaf (s "decorator(#" ++ dec_of_N (N.of_nat (fst jd)) ++ s ", " ++ quote (od_tag (snd jd))
                                                    ++ s "): service " ++ quote n ++ s " does not exist"))
                                   (missing (snames o) (flat_map a_services (od_args (snd jd)))))
                    (combine (seq 0 (length (o_decorators o))) (o_decorators o)))).
