(** Impl model of golang.org/x/mod/semver (parse, IsValid, Major, MajorMinor, Compare) on byte strings,
    and of gontainer's version gate (main.go buildVersion, input_version.go, validators_version.go). *)
From GV Require Import Base.Str.

Record parsed := { p_major : str; p_minor : str; p_patch : str; p_short : str; p_pre : str; p_build : str }.

Fixpoint take_digits (v : str) : str * str :=
  match v with
  | c :: v' => if is_digit c then let '(d, r) := take_digits v' in (c :: d, r) else ([], v)
  | [] => ([], [])
  end.

(** parseInt: a non-empty digit run without a leading zero (unless it is exactly "0") *)
Definition parse_int (v : str) : option (str * str) :=
  match v with
  | [] => None
  | c :: _ =>
      if negb (is_digit c) then None else
      let '(d, r) := take_digits v in
      if Ascii.eqb c "0"%char && negb (Nat.eqb (length d) 1) then None else Some (d, r)
  end.

Definition is_ident_char (c : ascii) : bool := is_upper c || is_lower c || is_digit c || Ascii.eqb c "-"%char.

Definition all_digits (v : str) : bool := forallb is_digit v.
(** isBadNum: all digits, more than one, leading zero *)
Definition is_bad_num (v : str) : bool :=
  all_digits v && Nat.ltb 1 (length v) && match v with c :: _ => Ascii.eqb c "0"%char | [] => false end.

(** parsePrerelease, v starts with '-': returns (prerelease incl. '-', rest) ; [cur] is the identifier being read (reversed) *)
Fixpoint parse_pre_aux (v : str) (cur : str) (acc : str) : option (str * str) :=
  match v with
  | [] => if match cur with [] => true | _ => is_bad_num (rev cur) end then None else Some (rev acc, [])
  | c :: v' =>
      if Ascii.eqb c "+"%char then
        if match cur with [] => true | _ => is_bad_num (rev cur) end then None else Some (rev acc, v)
      else if negb (is_ident_char c) && negb (Ascii.eqb c "."%char) then None
      else if Ascii.eqb c "."%char then
        if match cur with [] => true | _ => is_bad_num (rev cur) end then None
        else parse_pre_aux v' [] (c :: acc)
      else parse_pre_aux v' (c :: cur) (c :: acc)
  end.

Definition parse_prerelease (v : str) : option (str * str) :=
  match v with
  | c :: v' => if Ascii.eqb c "-"%char then parse_pre_aux v' [] [c] else None
  | [] => None
  end.

Fixpoint parse_build_aux (v : str) (cur_empty : bool) (acc : str) : option (str * str) :=
  match v with
  | [] => if cur_empty then None else Some (rev acc, [])
  | c :: v' =>
      if negb (is_ident_char c) && negb (Ascii.eqb c "."%char) then None
      else if Ascii.eqb c "."%char then
        if cur_empty then None else parse_build_aux v' true (c :: acc)
      else parse_build_aux v' false (c :: acc)
  end.

Definition parse_build (v : str) : option (str * str) :=
  match v with
  | c :: v' => if Ascii.eqb c "+"%char then parse_build_aux v' true [c] else None
  | [] => None
  end.

Definition mk major minor patch short pre build :=
  {| p_major := major; p_minor := minor; p_patch := patch; p_short := short; p_pre := pre; p_build := build |}.

Definition parse (v : str) : option parsed :=
  match v with
  | c :: v1 =>
    if negb (Ascii.eqb c "v"%char) then None else
    match parse_int v1 with
    | None => None
    | Some (major, v2) =>
      match v2 with
      | [] => Some (mk major (s "0") (s "0") (s ".0.0") [] [])
      | d :: v3 =>
        if negb (Ascii.eqb d "."%char) then None else
        match parse_int v3 with
        | None => None
        | Some (minor, v4) =>
          match v4 with
          | [] => Some (mk major minor (s "0") (s ".0") [] [])
          | e :: v5 =>
            if negb (Ascii.eqb e "."%char) then None else
            match parse_int v5 with
            | None => None
            | Some (patch, v6) =>
              let pre_step :=
                match v6 with
                | f :: _ => if Ascii.eqb f "-"%char then
                              match parse_prerelease v6 with
                              | None => None
                              | Some (pre, r) => Some (pre, r)
                              end
                            else Some ([], v6)
                | [] => Some ([], v6)
                end in
              match pre_step with
              | None => None
              | Some (pre, v7) =>
                let build_step :=
                  match v7 with
                  | g :: _ => if Ascii.eqb g "+"%char then
                                match parse_build v7 with
                                | None => None
                                | Some (b, r) => Some (b, r)
                                end
                              else Some ([], v7)
                  | [] => Some ([], v7)
                  end in
                match build_step with
                | None => None
                | Some (build, v8) =>
                  match v8 with
                  | [] => Some (mk major minor patch [] pre build)
                  | _ :: _ => None
                  end
                end
              end
            end
          end
        end
      end
    end
  | [] => None
  end.

Definition is_valid (v : str) : bool := match parse v with Some _ => true | None => false end.

Definition major (v : str) : str :=
  match parse v with
  | None => []
  | Some p => firstn (1 + length (p_major p)) v
  end.

Definition major_minor (v : str) : str :=
  match parse v with
  | None => []
  | Some p =>
      let i := (1 + length (p_major p))%nat in
      let j := (i + 1 + length (p_minor p))%nat in
      if Nat.leb j (length v)
         && match nth_error v i with Some c => Ascii.eqb c "."%char | None => false end
         && str_eqb (firstn (length (p_minor p)) (skipn (i + 1) v)) (p_minor p)
      then firstn j v
      else firstn i v ++ s "." ++ p_minor p
  end.

(** compareInt on decimal strings: -1, 0, +1 *)
Definition compare_int (x y : str) : Z :=
  if str_eqb x y then 0%Z
  else if Nat.ltb (length x) (length y) then (-1)%Z
  else if Nat.ltb (length y) (length x) then 1%Z
  else if str_ltb x y then (-1)%Z else 1%Z.

Fixpoint next_ident (x : str) : str * str :=
  match x with
  | c :: x' => if Ascii.eqb c "."%char then ([], x) else let '(d, r) := next_ident x' in (c :: d, r)
  | [] => ([], [])
  end.

Fixpoint compare_pre_loop (fuel : nat) (x y : str) : Z :=
  match fuel with
  | O => 0%Z
  | S f =>
    match x, y with
    | _ :: x1, _ :: y1 =>
        let '(dx, x2) := next_ident x1 in
        let '(dy, y2) := next_ident y1 in
        if negb (str_eqb dx dy) then
          let ix := all_digits dx in
          let iy := all_digits dy in
          if negb (Bool.eqb ix iy) then (if ix then (-1)%Z else 1%Z)
          else if ix && Nat.ltb (length dx) (length dy) then (-1)%Z
          else if ix && Nat.ltb (length dy) (length dx) then 1%Z
          else if str_ltb dx dy then (-1)%Z else 1%Z
        else compare_pre_loop f x2 y2
    | [], _ => (-1)%Z
    | _, [] => 1%Z
    end
  end.

Definition compare_prerelease (x y : str) : Z :=
  if str_eqb x y then 0%Z
  else match x, y with
       | [], _ => 1%Z
       | _, [] => (-1)%Z
       | _, _ => compare_pre_loop (S (length x)) x y
       end.

Definition compare (v w : str) : Z :=
  match parse v, parse w with
  | None, None => 0%Z
  | None, Some _ => (-1)%Z
  | Some _, None => 1%Z
  | Some pv, Some pw =>
      let c := compare_int (p_major pv) (p_major pw) in
      if negb (Z.eqb c 0) then c else
      let c := compare_int (p_minor pv) (p_minor pw) in
      if negb (Z.eqb c 0) then c else
      let c := compare_int (p_patch pv) (p_patch pw) in
      if negb (Z.eqb c 0) then c else
      compare_prerelease (p_pre pv) (p_pre pw)
  end.

(** ---- gontainer ---- *)

(** main.go buildVersion: a leading "v" is trimmed iff the linker-provided version is valid semver *)
Definition build_version (linked : str) : str :=
  if has_prefix (s "v") linked && is_valid linked then trim_prefix (s "v") linked else linked.

(** input_version.go UnmarshalYAML on a string scalar *)
Definition unmarshal_version_ok (vs : str) : bool := is_valid (s "v" ++ vs).

Inductive verdict := VOk | VErr (msg : str).

(** [given_prefix]: how the validator turns the configured version into the string handed to x/mod/semver.
    The repaired code prefixes "v" unless it is already there (unit tests pass v-prefixed values). *)
Definition given_norm (v : str) : str := if has_prefix (s "v") v then v else s "v" ++ v.

(** validators_version.go: NewVersionValidator(B).ValidateVersion *)
Definition validate_version_msg (B : str) (V : option str) : option str :=
  let valid := is_valid (s "v" ++ B) in
  let ver := if valid then s "v" ++ B else B in
  match V with
  | None => None
  | Some v =>
    if negb valid then None else
    let g := given_norm v in
    let curr := major_minor ver ++ s ".0" in
    let given := major_minor g ++ s ".0" in
    if str_eqb (major ver) (s "v0") then
      (if negb (str_eqb curr given) then Some (s "possibly incompatible versions") else None)
    else if negb (str_eqb (major ver) (major g)) then Some (s "incompatible versions")
    else if Z.ltb (compare curr given) 0 then Some (s "update Gontainer to use all new features")
    else None
  end.

Definition version_error_prefix (B v : str) : str :=
  s "version: current: " ++ (if is_valid (s "v" ++ B) then s "v" ++ B else B) ++ s ", given: " ++ v ++ s ": ".

Definition validate_version (B : str) (V : option str) : option str :=
  match validate_version_msg B V, V with
  | Some m, Some v => Some (version_error_prefix B v ++ m)
  | _, _ => None
  end.
