(** internal/pkg/resolver, internal/pkg/syntax, internal/pkg/compiler: Input -> Output. *)
From GV Require Import Base.Str Base.Quote Base.Gerr Base.Sort Regex.Re Model.Env Model.Input Model.Imports Model.Token.

Record arg := { a_code : str; a_raw : prim; a_params : list str; a_services : list str; a_tags : list str }.
Definition zero_arg : arg := {| a_code := []; a_raw := PNil; a_params := []; a_services := []; a_tags := [] |}.

Record ocall := { oc_method : str; oc_args : list arg; oc_immutable : bool }.
Inductive oscope := OScDefault | OScShared | OScContextual | OScNonShared.
Record oservice := {
  os_name : str; os_getter : str; os_must_getter : bool; os_type : str; os_value : str; os_constructor : str;
  os_args : list arg; os_calls : list ocall; os_fields : list (str * arg); os_tags : list tag; os_scope : oscope;
  os_todo : bool }.
Record oparam := { op_name : str; op_code : str; op_raw : prim; op_depends : list str }.
Record odecorator := { od_tag : str; od_decorator : str; od_args : list arg; od_raw : str }.
Record ometa := { om_pkg : str; om_type : str; om_ctor : str }.
Record output := { o_meta : ometa; o_params : list oparam; o_services : list oservice; o_decorators : list odecorator }.
Definition empty_output : output :=
  {| o_meta := {| om_pkg := []; om_type := []; om_ctor := [] |}; o_params := []; o_services := []; o_decorators := [] |}.

(** exporter.Export on a primitive (MustExport never fails on primitives) *)
Definition export (p : prim) : str :=
  match p with
  | PNil => s "nil"
  | PBool true => s "true"
  | PBool false => s "false"
  | PInt k t => k ++ s "(" ++ t ++ s ")"
  | PFloat k t => k ++ s "(" ++ t ++ s ")"
  | PStr x => quote x
  | POther t => s "<unexportable " ++ t ++ s ">"
  end.

(** A float of magnitude >= 1e19 is printed by the exporter as a decimal integer of 20 or more digits (an untyped integer constant that
    the compiler rejects beyond 512 bits): the resolver writes it in the exponent form, strconv.FormatFloat(v,'e',-1,64).  Both forms
    carry the same shortest digit string, so the exponent form is computed from the plain one: d1 [. d2...dk] e+NN. *)
Definition is_digit_c (c : ascii) : bool := (48 <=? code c)%N && (code c <=? 57)%N.
Definition huge_float_text (t : str) : bool :=
  let ds := match t with "-"%char :: r => r | _ => t end in
  forallb is_digit_c ds && Nat.leb 20 (length ds).
Fixpoint strip_trailing_zeros (l : str) : str :=
  match l with
  | [] => []
  | c :: r => match strip_trailing_zeros r with
              | [] => if Ascii.eqb c "0"%char then [] else [c]
              | r' => c :: r'
              end
  end.
Definition exp_form (t : str) : str :=
  let '(sign, ds) := match t with "-"%char :: r => (s "-", r) | _ => ([], t) end in
  let m := strip_trailing_zeros ds in
  let e := dec_of_N (N.of_nat (length ds - 1)) in
  sign ++ match m with
          | [] => s "0"
          | d :: [] => [d]
          | d :: r => d :: "."%char :: r
          end ++ s "e+" ++ (if Nat.ltb (length e) 2 then "0"%char :: e else e).

(** NonStringPrimitiveResolver: Go has no constant expression for a non-finite float, so these are emitted as run-time
    expressions; everything else is the exporter's text.  The text of a float is strconv.FormatFloat(v,'f',-1,64). *)
Definition literal_code (p : prim) : str :=
  match p with
  | PFloat k t =>
      if str_eqb k (s "float64") && str_eqb t (s "+Inf") then s "func() float64 { var z float64; return 1 / z }()"
      else if str_eqb k (s "float64") && str_eqb t (s "-Inf") then s "func() float64 { var z float64; return -1 / z }()"
      else if str_eqb k (s "float64") && str_eqb t (s "NaN") then s "func() float64 { var z float64; return z / z }()"
      else if str_eqb k (s "float64") && str_eqb t (s "-0") then s "func() float64 { var z float64; return -z }()"
      else if str_eqb k (s "float64") && huge_float_text t then k ++ s "(" ++ exp_form t ++ s ")"
      else export p
  | _ => export p
  end.

(** compile state: alias table + registered parameter functions (most recent first) *)
Record cst := { cs_imports : ist; cs_fns : list fnfact }.

Section WithEnv.
Variable E : env.

(** syntax.SanitizeImport *)
Definition sanitize_import (i : str) : str :=
  let r := trim_both """"%char i in
  if str_eqb r (s ".") then [] else r.

Definition smatch (st : site) (x : str) : caps := match site_submatch st x with Some c => c | None => [] end.

(** syntax.CompileServiceValue *)
Definition compile_service_value (is_ : ist) (expr : str) : str * ist :=
  let st := re_sy_ServiceValue E in
  let m := smatch st expr in
  match sub st m (s "v1") with
  | _ :: _ =>
    let imp := sanitize_import (sub st m (s "import")) in
    let '(parts, is1) := match imp with [] => ([], is_) | _ => let '(a, i') := alias is_ imp in ([a], i') end in
    (sub st m (s "ptr") ++ join (s ".") (parts ++ [sub st m (s "value")]), is1)
  | [] =>
    let imp := sanitize_import (sub st m (s "import2")) in
    let '(parts, is1) := match imp with [] => ([], is_) | _ => let '(a, i') := alias is_ imp in ([a], i') end in
    (sub st m (s "ptr2") ++ join (s ".") (parts ++ [sub st m (s "struct2")]) ++ s "{}", is1)
  end.

(** import-qualified name: [alias(import).name] or [name] *)
Definition qualify (is_ : ist) (imp name : str) : str * ist :=
  match sanitize_import imp with
  | [] => (name, is_)
  | i => let '(a, is1) := alias is_ i in (a ++ s "." ++ name, is1)
  end.

(** *** argument resolvers *)
Definition rk_supports (k : resolver_kind) (p : prim) : bool :=
  match k, p with
  | RNonString, PStr _ => false
  | RNonString, _ => is_primitive p
  | RValue, PStr x => site_match (re_rs_valuePrefix E) x
  | RService, PStr x => site_match (re_rs_servicePrefix E) x
  | RTagged, PStr x => site_match (re_rs_taggedPrefix E) x
  | RFixed id _, PStr x => str_eqb id x
  | RPattern, PStr _ => true
  | _, _ => false
  end.

Definition mk_arg code raw ps ss ts := {| a_code := code; a_raw := raw; a_params := ps; a_services := ss; a_tags := ts |}.

Definition rk_resolve (k : resolver_kind) (p : prim) (c : cst) : (arg * err) * cst :=
  match k, p with
  | RNonString, _ => ((mk_arg (fmt1 (k_tpl_dep_value E) (literal_code p)) p [] [] [], None), c)
  | RValue, PStr x =>
      match site_submatch (re_rs_value E) x with
      | None => ((zero_arg, leaf (s "invalid value")), c)
      | Some m =>
        let '(code, is1) := compile_service_value (cs_imports c) (sub (re_rs_value E) m (s "argval")) in
        ((mk_arg (fmt1 (k_tpl_dep_value E) code) p [] [] [], None), {| cs_imports := is1; cs_fns := cs_fns c |})
      end
  | RService, PStr x =>
      match site_submatch (re_rs_service E) x with
      | None => ((zero_arg, leaf (s "invalid service")), c)
      | Some m => let n := sub (re_rs_service E) m (s "service") in
                  ((mk_arg (fmt1 (k_tpl_dep_service E) n) p [] [n] [], None), c)
      end
  | RTagged, PStr x =>
      match site_submatch (re_rs_tagged E) x with
      | None => ((zero_arg, leaf (s "invalid tag")), c)
      | Some m => let n := sub (re_rs_tagged E) m (s "tag") in
                  ((mk_arg (fmt1 (k_tpl_dep_tag E) n) p [] [] [n], None), c)
      end
  | RFixed _ v, _ => ((mk_arg (fmt1 (k_tpl_dep_value E) v) p [] [] [], None), c)
  | RPattern, PStr x =>
      let '((ts, e), is1) := tokenize E (cs_fns c) x (cs_imports c) in
      let c1 := {| cs_imports := is1; cs_fns := cs_fns c |} in
      match e with
      | Some _ => ((zero_arg, e), c1)
      | None =>
        match go_code E ts with
        | inr m => ((zero_arg, leaf m), c1)
        | inl code => ((mk_arg code p (flat_map tk_depends ts) [] [], None), c1)
        end
      end
  | _, _ => ((zero_arg, leaf (s "unreachable: resolver applied to an unsupported value")), c)
  end.

Definition gotype_of (p : prim) : str :=
  match p with
  | PNil => s "<nil>" | PBool _ => s "bool" | PInt k _ => k | PFloat k _ => k | PStr _ => s "string" | POther t => t
  end.

(** ArgResolver.ResolveArg: first strategy that supports the value *)
Fixpoint resolve_chain (ch : list resolver_kind) (p : prim) (c : cst) : (arg * err) * cst :=
  match ch with
  | [] => ((zero_arg, leaf (s "not supported " ++ gotype_of p)), c)
  | k :: ch' => if rk_supports k p then rk_resolve k p c else resolve_chain ch' p c
  end.

Definition resolve_arg := resolve_chain (w_arg_chain E).

(** compiler.resolveArgs *)
Fixpoint resolve_args_aux (i : nat) (l : list prim) (c : cst) : (list arg * list err) * cst :=
  match l with
  | [] => (([], []), c)
  | p :: l' =>
    let '((a, e), c1) := resolve_arg p c in
    let '((as_, es), c2) := resolve_args_aux (S i) l' c1 in
    ((a :: as_, gprefix (dec_of_N (N.of_nat i) ++ s ": ") [e] :: es), c2)
  end.
Definition resolve_args (l : list prim) (c : cst) : (list arg * err) * cst :=
  let '((as_, es), c1) := resolve_args_aux O l c in ((as_, gprefix (s "args: ") es), c1).

(** ParamResolver.ResolveParam *)
Record pexpr := { pe_code : str; pe_raw : prim; pe_depends : list str }.
Definition resolve_param (p : prim) (c : cst) : (pexpr * err) * cst :=
  let '((a, e), c1) := resolve_chain (w_param_chain E) p c in
  let errs :=
    (match a_services a with [] => [] | l => [leaf (s "param cannot depend on any service: " ++ join (s ", ") l)] end) ++
    (match a_tags a with [] => [] | l => [leaf (s "param cannot depend on any tag: " ++ join (s ", ") l)] end) in
  match errs with
  | [] => (({| pe_code := a_code a; pe_raw := a_raw a; pe_depends := a_params a |}, e), c1)
  | _ => (({| pe_code := []; pe_raw := PNil; pe_depends := [] |}, gjoin errs), c1)
  end.

(** *** compile steps *)

(** syntax.SanitizeImport applied to a meta.imports value: the quotes are not part of the path *)
Definition sanitize_path (p : str) : str := let r := trim_both """"%char p in if str_eqb r (s ".") then [] else r.

(** StepCompileMeta *)
Fixpoint register_imports (l : list (str * str)) (is_ : ist) : list err * ist :=
  match l with
  | [] => ([], is_)
  | (a, p) :: l' => let '(is1, e) := register_prefix a (sanitize_path p) is_ in
                    let '(es, is2) := register_imports l' is1 in (e :: es, is2)
  end.

Definition register_fn (fns : list fnfact) (kv : str * str) : list fnfact :=
  let st := re_co_MetaGoFn E in
  let m := smatch st (snd kv) in
  {| ff_fn := fst kv; ff_import := sanitize_import (sub st m (s "import")); ff_gofn := sub st m (s "fn") |} :: fns.

Definition opt_or {A} (o : option A) (d : A) : A := match o with Some x => x | None => d end.

Definition step_meta (i : input) (o : output) (c : cst) : (output * err) * cst :=
  let m := i_meta i in
  let om := {| om_pkg := opt_or (m_pkg m) (k_default_pkg E); om_type := opt_or (m_container_type m) (k_default_type E);
               om_ctor := opt_or (m_container_constructor m) (k_default_ctor E) |} in
  let '(es, is1) := register_imports (sorted_entries (m_imports m)) (cs_imports c) in
  let fns := fold_left register_fn (sorted_entries (m_functions m)) (cs_fns c) in
  (({| o_meta := om; o_params := o_params o; o_services := o_services o; o_decorators := o_decorators o |},
    gprefix (s "compiler.StepCompileMeta: ") [gprefix (s "imports: ") es]),
   {| cs_imports := is1; cs_fns := fns |}).

(** StepCompileParams *)
Fixpoint compile_params (l : list (str * prim)) (c : cst) : (list oparam * list err) * cst :=
  match l with
  | [] => (([], []), c)
  | (k, v) :: l' =>
    let '((pe, e), c1) := resolve_param v c in
    let '((ps, es), c2) := compile_params l' c1 in
    match e with
    | Some _ => (({| op_name := k; op_code := []; op_raw := PNil; op_depends := [] |} :: ps,
                  gprefix (quote k ++ s ": ") [e] :: es), c2)
    | None => (({| op_name := k; op_code := pe_code pe; op_raw := pe_raw pe; op_depends := pe_depends pe |} :: ps, es), c2)
    end
  end.
Definition step_params (i : input) (o : output) (c : cst) : (output * err) * cst :=
  let '((ps, es), c1) := compile_params (sorted_entries (i_params i)) c in
  (({| o_meta := o_meta o; o_params := o_params o ++ ps; o_services := o_services o; o_decorators := o_decorators o |},
    gprefix (s "compiler.StepCompileParams: ") es), c1).

(** StepCompileServices *)
Fixpoint compile_fields (l : list (str * prim)) (c : cst) : (list (str * arg) * list err) * cst :=
  match l with
  | [] => (([], []), c)
  | (n, v) :: l' =>
    let '((a, e), c1) := resolve_arg v c in
    let '((fs, es), c2) := compile_fields l' c1 in
    (((n, a) :: fs, match e with Some _ => gprefix (quote n ++ s ": ") [e] :: es | None => es end), c2)
  end.

Fixpoint compile_calls (i : nat) (l : list call) (c : cst) : (list ocall * list err) * cst :=
  match l with
  | [] => (([], []), c)
  | cl :: l' =>
    let '((as_, e), c1) := resolve_args (c_args cl) c in
    let '((cs, es), c2) := compile_calls (S i) l' c1 in
    (({| oc_method := c_method cl; oc_args := as_; oc_immutable := c_immutable cl |} :: cs,
      gprefix (dec_of_N (N.of_nat i) ++ s ": ") [e] :: es), c2)
  end.

Definition getter_of (sv : service) (m : meta) : (str * bool) * err :=
  let g := opt_or (sv_getter sv) [] in
  let mg := opt_or (sv_must_getter sv) (opt_or (m_default_must_getter m) (k_default_must E)) in
  match g, sv_must_getter sv with
  | [], Some _ => if mg then ((g, mg), leaf (s "cannot generate a must-getter when the getter is not specified")) else ((g, mg), None)
  | [], None => ((g, false), None)
  | _, _ => ((g, mg), None)
  end.

Definition service_type (t : option str) (is_ : ist) : str * ist :=
  match t with
  | None => (s "interface{}", is_)
  | Some x =>
    let st := re_co_ServiceType E in
    let m := smatch st x in
    let '(q, is1) := qualify is_ (sub st m (s "import")) (sub st m (s "type")) in
    (sub st m (s "ptr") ++ q, is1)
  end.

Definition service_constructor (t : option str) (is_ : ist) : str * ist :=
  match t with
  | None => ([], is_)
  | Some x =>
    let st := re_co_ServiceConstructor E in
    let m := smatch st x in
    qualify is_ (sub st m (s "import")) (sub st m (s "fn"))
  end.

Definition with_imports (c : cst) (is_ : ist) : cst := {| cs_imports := is_; cs_fns := cs_fns c |}.

Definition process_service (name : str) (sv : service) (m : meta) (c : cst) : (oservice * err) * cst :=
  if opt_or (sv_todo sv) false then
    (({| os_name := name; os_getter := []; os_must_getter := false; os_type := []; os_value := []; os_constructor := [];
         os_args := []; os_calls := []; os_fields := []; os_tags := []; os_scope := OScDefault; os_todo := true |}, None), c)
  else
    let '((fields, ferrs), c1) := compile_fields (sorted_entries (sv_fields sv)) c in
    let '((args, aerr), c2) := resolve_args (sv_args sv) c1 in
    let '((calls, cerrs), c3) := compile_calls O (sv_calls sv) c2 in
    let '((g, mg), gerr_) := getter_of sv m in
    let '(ty, i4) := service_type (sv_type sv) (cs_imports c3) in
    let '(va, i5) := match sv_value sv with None => ([], i4) | Some v => compile_service_value i4 v end in
    let '(co, i6) := service_constructor (sv_constructor sv) i5 in
    (({| os_name := name; os_getter := g; os_must_getter := mg; os_type := ty; os_value := va; os_constructor := co;
         os_args := args; os_calls := calls; os_fields := fields; os_tags := sv_tags sv; os_scope := OScDefault;
         os_todo := false |},
      gprefix (quote name ++ s ": ") [gprefix (s "fields: ") ferrs; aerr; gprefix (s "calls: ") cerrs; gerr_]),
     with_imports c3 i6).

Definition oscope_of (sc : option scope) : oscope :=
  match sc with
  | None => OScDefault | Some ScShared => OScShared | Some ScContextual => OScContextual | Some ScNonShared => OScNonShared
  end.

Definition set_scope (sv : oservice) (sc : oscope) : oservice :=
  {| os_name := os_name sv; os_getter := os_getter sv; os_must_getter := os_must_getter sv; os_type := os_type sv;
     os_value := os_value sv; os_constructor := os_constructor sv; os_args := os_args sv; os_calls := os_calls sv;
     os_fields := os_fields sv; os_tags := os_tags sv; os_scope := sc; os_todo := os_todo sv |}.

Fixpoint compile_services (l : list (str * service)) (m : meta) (c : cst) : (list oservice * list err) * cst :=
  match l with
  | [] => (([], []), c)
  | (k, v) :: l' =>
    let '((sv, e), c1) := process_service k v m c in
    let '((svs, es), c2) := compile_services l' m c1 in
    ((set_scope sv (oscope_of (sv_scope v)) :: svs, e :: es), c2)
  end.

Definition step_services (i : input) (o : output) (c : cst) : (output * err) * cst :=
  let '((svs, es), c1) := compile_services (sorted_entries (i_services i)) (i_meta i) c in
  (({| o_meta := o_meta o; o_params := o_params o; o_services := svs; o_decorators := o_decorators o |},
    gprefix (s "compiler.StepCompileServices: ") es), c1).

(** StepCompileDecorators *)
Fixpoint compile_decorators (j : nat) (l : list decorator) (c : cst) : (list odecorator * list err) * cst :=
  match l with
  | [] => (([], []), c)
  | d :: l' =>
    let st := re_co_DecoratorMethod E in
    let m := smatch st (d_decorator d) in
    let '(method, i1) := qualify (cs_imports c) (sub st m (s "import")) (sub st m (s "fn")) in
    let '((args, e), c1) := resolve_args (d_args d) (with_imports c i1) in
    let '((ds, es), c2) := compile_decorators (S j) l' c1 in
    (({| od_tag := d_tag d; od_decorator := method; od_args := args; od_raw := d_decorator d |} :: ds,
      gprefix (s "#" ++ dec_of_N (N.of_nat j) ++ s " " ++ quote (d_decorator d) ++ s ": ") [e] :: es), c2)
  end.

Definition step_decorators (i : input) (o : output) (c : cst) : (output * err) * cst :=
  let '((ds, es), c1) := compile_decorators O (i_decorators i) c in
  (({| o_meta := o_meta o; o_params := o_params o; o_services := o_services o; o_decorators := ds |},
    gprefix (s "compiler.StepCompileDecorators: ") es), c1).

End WithEnv.
