(** internal/pkg/template: what the templates print (before go/format and goimports), as lines of text.
    Alias allocation order follows the order in which text/template evaluates the alias functions: body first, head last. *)
From GV Require Import Base.Str Base.Quote Base.Sort Model.Env Model.Input Model.Imports Model.Compile.

Section WithEnv.
Variable E : env.

Definition dots76 : str := repeat_str (bs [194;183]%N) 76.
Definition banner (title : str) (side : nat) : list str :=
  [s "// " ++ dots76; s "// " ++ repeat_str (bs [194;183]%N) side ++ title ++ repeat_str (bs [194;183]%N) side; s "// " ++ dots76].

(** {{template "export-raw" raw}} *)
Definition export_raw (p : prim) : str :=
  match p with PStr _ => s "eval(" ++ export p ++ s ")" | _ => export p end.
Definition func_args (l : list arg) : str := join (s ", ") (map (fun a => export_raw (a_raw a)) l).

Definition params_comment (ps : list oparam) : list str :=
  (match ps with [] => [] | _ => banner (s "PARAMS") 35 end) ++
  flat_map (fun p => [s "// #### " ++ op_name p; s "// Raw: " ++ export (op_raw p); s "// GO:  " ++ op_code p; s "// " ++ dots76]) ps.

Definition is_tagged (sv : oservice) (t : str) : bool := existsb (fun x => str_eqb (t_name x) t) (os_tags sv).

Definition service_comment (ds : list odecorator) (sv : oservice) : list str :=
  (s "// #### " ++ os_name sv) ::
  (if os_todo sv then [s "// panic(""todo"")"]
   else
     [match os_value sv, os_type sv with
      | _ :: _, _ => s "// service := " ++ os_value sv
      | [], _ :: _ => s "// var service " ++ os_type sv
      | [], [] => s "// var service interface{}"
      end] ++
     (match os_constructor sv with [] => [] | c => [s "// service = " ++ c ++ s "(" ++ func_args (os_args sv) ++ s ")"] end) ++
     map (fun f => s "// " ++ os_name sv ++ s "." ++ fst f ++ s " = " ++ export_raw (a_raw (snd f))) (os_fields sv) ++
     map (fun c => if oc_immutable c
                   then s "// service = service." ++ oc_method c ++ s "(" ++ func_args (oc_args c) ++ s ")"
                   else s "// service." ++ oc_method c ++ s "(" ++ func_args (oc_args c) ++ s ")") (os_calls sv) ++
     flat_map (fun d => if is_tagged sv (od_tag d)
                        then [s "// service = " ++ od_decorator d ++ s "(" ++ quote (os_name sv) ++ s ", service" ++
                              (match od_args d with [] => [] | l => s ", " ++ func_args l end) ++ s ")"]
                        else []) ds)
  ++ [s "// " ++ dots76].

Definition services_comment (o : output) : list str :=
  banner (s "SERVICES") 34 ++ flat_map (service_comment (o_decorators o)) (o_services o).

(** the packages the generated code itself imports: absolute, never rewritten by user aliases *)
Definition helper (sub : str) : str := k_helper_path E ++ s "/" ++ sub.

Record names := { n_container : str; n_context : str; n_reflect : str; n_grouperror : str; n_fmt : str; n_copier : str;
                  n_errors : str; n_exporter : str; n_os : str; n_strconv : str; n_caller : str }.

Definition has_getter (o : output) : bool := existsb (fun sv => match os_getter sv with [] => false | _ => true end) (o_services o).
Definition has_todo (o : output) : bool := existsb os_todo (o_services o).

(** allocate, in template evaluation order, the aliases the body needs; unevaluated branches allocate nothing *)
Definition body_names (stub : bool) (o : output) (i0 : ist) : names * ist :=
  let '(c, i1) := alias_abs i0 (helper (s "container")) in
  let '(cx, i2) := alias_abs i1 (s "context") in
  let '(rf, i3) := alias_abs i2 (s "reflect") in
  if stub then
    ({| n_container := c; n_context := cx; n_reflect := rf; n_grouperror := []; n_fmt := []; n_copier := []; n_errors := [];
        n_exporter := []; n_os := []; n_strconv := []; n_caller := [] |}, i3)
  else
    let '(ge, fm, cp, i6) :=
      if has_getter o then
        let '(ge, i4) := alias_abs i3 (helper (s "grouperror")) in
        let '(fm, i5) := alias_abs i4 (s "fmt") in
        let '(cp, i6) := alias_abs i5 (helper (s "copier")) in (ge, fm, cp, i6)
      else ([], [], [], i3) in
    let '(er0, i7) := if has_todo o then alias_abs i6 (s "errors") else ([], i6) in
    let '(ex, i8) := alias_abs i7 (helper (s "exporter")) in
    let '(er, i9) := alias_abs i8 (s "errors") in
    let '(os_, i10) := alias_abs i9 (s "os") in
    let '(fm2, i11) := alias_abs i10 (s "fmt") in
    let '(sc, i12) := alias_abs i11 (s "strconv") in
    let '(ca, i13) := alias_abs i12 (helper (s "caller")) in
    ({| n_container := c; n_context := cx; n_reflect := rf; n_grouperror := ge; n_fmt := fm2; n_copier := cp; n_errors := er;
        n_exporter := ex; n_os := os_; n_strconv := sc; n_caller := ca |}, i13).

(** ** declarations *)
Record method := { mt_name : str; mt_params : str; mt_results : str; mt_body : list str }.

Definition getter_methods (stub : bool) (n : names) (ct : str) (sv : oservice) : list method :=
  match os_getter sv with
  | [] => []
  | g =>
    let ty := os_type sv in
    let ctxp := s "ctx " ++ n_context n ++ s ".Context" in
    let res := if stub then s "(" ++ ty ++ s ", error)" else s "(result " ++ ty ++ s ", err error)" in
    let body (call : str) (label : str) : list str :=
      if stub then [s "panic(""stub"")"]
      else [ s "var s interface{}"; s "s, err = " ++ call;
             s "if err != nil {";
             s "return result, " ++ n_grouperror n ++ s ".Prefix(";
             n_fmt n ++ s ".Sprintf(""%s.%s" ++ label ++ s "(): "", " ++ quote ct ++ s ", " ++ quote g ++ s "),";
             s "err,"; s ")"; s "}";
             s "err = " ++ n_grouperror n ++ s ".Prefix(";
             n_fmt n ++ s ".Sprintf(""%s.%s" ++ label ++ s "(): "", " ++ quote ct ++ s ", " ++ quote g ++ s "),";
             n_copier n ++ s ".Copy(s, &result, true),"; s ")"; s "return" ] in
    [ {| mt_name := g; mt_params := []; mt_results := res; mt_body := body (s "c.Get(" ++ quote (os_name sv) ++ s ")") [] |};
      {| mt_name := g ++ s "InContext"; mt_params := ctxp; mt_results := res;
         mt_body := body (s "c.GetInContext(ctx, " ++ quote (os_name sv) ++ s ")") (s "InContext") |} ] ++
    (if os_must_getter sv then
       let mbody (call : str) := if stub then [s "panic(""stub"")"]
                                 else [s "r, err := " ++ call; s "if err != nil {"; s "panic(err.Error())"; s "}"; s "return r"] in
       [ {| mt_name := s "Must" ++ g; mt_params := []; mt_results := ty; mt_body := mbody (s "c." ++ g ++ s "()") |};
         {| mt_name := s "Must" ++ g ++ s "InContext"; mt_params := ctxp; mt_results := ty; mt_body := mbody (s "c." ++ g ++ s "InContext(ctx)") |} ]
     else [])
  end.

Definition all_getter_methods (stub : bool) (n : names) (o : output) : list method :=
  flat_map (getter_methods stub n (om_type (o_meta o))) (o_services o).

Definition print_method (ct : str) (m : method) : list str :=
  [s "func (c *" ++ ct ++ s ") " ++ mt_name m ++ s "(" ++ mt_params m ++ s ") " ++ mt_results m ++ s " {"] ++ mt_body m ++ [s "}"; []].

(** signatures inside the interface literal of init() *)
Definition iface_getters (n : names) (sv : oservice) : list str :=
  match os_getter sv with
  | [] => []
  | g =>
    let ctxp := s "ctx " ++ n_context n ++ s ".Context" in
    [ g ++ s "() (" ++ os_type sv ++ s ", error)"; g ++ s "InContext(" ++ ctxp ++ s ") (" ++ os_type sv ++ s ", error)" ] ++
    (if os_must_getter sv then [ s "Must" ++ g ++ s "() " ++ os_type sv; s "Must" ++ g ++ s "InContext(" ++ ctxp ++ s ") " ++ os_type sv ] else [])
  end.

Definition init_decl (n : names) (o : output) : list str :=
  let c := n_container n in
  let cx := n_context n in
  [ s "func init() {"; s "interface_ := (*interface {";
    s "// service container";
    s "Get(serviceID string) (interface{}, error)";
    s "GetInContext(ctx " ++ cx ++ s ".Context, serviceID string) (interface{}, error)";
    s "CircularDeps() error";
    s "OverrideService(serviceID string, s " ++ c ++ s ".Service)";
    s "AddDecorator(tag string, decorator interface{}, deps ..." ++ c ++ s ".Dependency)";
    s "IsTaggedBy(serviceID string, tag string) bool";
    s "GetTaggedBy(tag string) ([]interface{}, error)";
    s "GetTaggedByInContext(ctx " ++ cx ++ s ".Context, tag string) ([]interface{}, error)";
    [];
    s "// param container";
    s "GetParam(paramID string) (interface{}, error)";
    s "OverrideParam(paramID string, d " ++ c ++ s ".Dependency)";
    [];
    s "// misc";
    s "HotSwap(func (" ++ c ++ s ".MutableContainer))";
    s "Root() *" ++ c ++ s ".Container";
    [];
    s "// getters" ] ++
  flat_map (iface_getters n) (o_services o) ++
  [ s "})(nil)"; [];
    s "var nilContainer *" ++ om_type (o_meta o); [];
    s "interfaceType := " ++ n_reflect n ++ s ".TypeOf(interface_).Elem()";
    s "implements := " ++ n_reflect n ++ s ".TypeOf(nilContainer).Implements(interfaceType)"; [];
    s "if !implements {"; s "panic(""generated container does not implement expected interface"")"; s "}"; s "}"; [] ].

Definition arg_lines (l : list arg) : list str :=
  flat_map (fun a => [s "// " ++ export (a_raw a); a_code a ++ s ","]) l.

Definition service_block (n : names) (sv : oservice) : list str :=
  [ s "// " ++ quote (os_name sv); s "{"; s "s := newService()" ] ++
  (if os_todo sv then
     [ s "s.SetConstructor(func () (interface{}, error) { return nil, " ++ n_errors n ++ s ".New(""service todo"") })" ]
   else
     (match os_constructor sv, os_value sv, os_type sv with
      | _ :: _, _, _ => [s "s.SetConstructor("; os_constructor sv ++ s ","] ++ arg_lines (os_args sv) ++ [s ")"]
      | [], _ :: _, ty => [s "s.SetConstructor(func () " ++ (match ty with [] => s " interface{} " | _ => s " " ++ ty ++ s " " end)
                           ++ s "{ return " ++ os_value sv ++ s " })"]
      | [], [], _ :: _ => [s "s.SetConstructor(func () (result " ++ os_type sv ++ s ") { return })"]
      | [], [], [] => []
      end) ++
     map (fun f => s "s.SetField(" ++ quote (fst f) ++ s ", " ++ a_code (snd f) ++ s " )") (os_fields sv) ++
     flat_map (fun c => [ (if oc_immutable c then s "s.AppendWither(" else s "s.AppendCall("); quote (oc_method c) ++ s "," ]
                        ++ arg_lines (oc_args c) ++ [s ")"]) (os_calls sv) ++
     map (fun t => s "s.Tag(" ++ quote (t_name t) ++ s ", int(" ++ dec_of_Z (t_prio t) ++ s "))") (os_tags sv) ++
     [ match os_scope sv with
       | OScDefault => s "s.SetScopeDefault()"
       | OScShared => s "s.SetScopeShared()"
       | OScContextual => s "s.SetScopeContextual()"
       | OScNonShared => s "s.SetScopeNonShared()"
       end ]) ++
  [ s "c.OverrideService(" ++ quote (os_name sv) ++ s ", s)"; s "}" ].

Definition hbanner (title : str) : list str := [s "//"; s "//"; title; title; s "//"; s "//"].

Definition constructor_body (n : names) (o : output) : list str :=
  let c := n_container n in
  [ s "c := &" ++ om_type (o_meta o) ++ s "{"; s "Container: " ++ c ++ s ".New(),"; s "}"; s "rootGontainer = c"; [];
    s "//"; s "//"; s "// #####################################"; s "// ############## Helpers ##############"; s "//"; s "//";
    s "dependencyService := " ++ c ++ s ".NewDependencyService"; s "_ = dependencyService";
    s "dependencyValue := " ++ c ++ s ".NewDependencyValue"; s "_ = dependencyValue";
    s "dependencyTag := " ++ c ++ s ".NewDependencyTag"; s "_ = dependencyTag";
    s "dependencyProvider := " ++ c ++ s ".NewDependencyProvider"; s "_ = dependencyProvider";
    s "newService := " ++ c ++ s ".NewService"; s "_ = newService";
    s "concatenateChunks := c._concatenateChunks"; s "_ = concatenateChunks";
    s "paramTodo := c._paramTodo"; s "_ = paramTodo";
    s "getEnv := c._getEnv"; s "_ = getEnv";
    s "getEnvInt := c._getEnvInt"; s "_ = getEnvInt";
    s "getParam := c.GetParam"; s "_ = getParam";
    s "callProvider := c._callProvider"; s "_ = callProvider"; [] ] ++
  (match o_params o with [] => [] | _ =>
     [ s "//"; s "//"; s "// ####################################"; s "// ############## Params ##############"; s "//"; s "//" ] end) ++
  flat_map (fun p => [ s "// " ++ quote (op_name p) ++ s ": " ++ export (op_raw p);
                       s "c.OverrideParam(" ++ quote (op_name p) ++ s ", " ++ op_code p ++ s ")" ]) (o_params o) ++
  (match o_services o with [] => [] | _ =>
     [ s "//"; s "//"; s "// ######################################"; s "// ############## Services ##############"; s "//"; s "//" ] end) ++
  flat_map (service_block n) (o_services o) ++
  (match o_decorators o with [] => [] | _ =>
     [ s "//"; s "//"; s "// ########################################"; s "// ############## Decorators ##############"; s "//"; s "//" ] end) ++
  flat_map (fun d => [ s "c.AddDecorator("; quote (od_tag d) ++ s ","; od_decorator d ++ s "," ] ++
                     map (fun a => a_code a ++ s ",") (od_args d) ++ [s ")"]) (o_decorators o) ++
  [ []; s "return" ].

Definition constructor_decl (stub : bool) (n : names) (o : output) : list str :=
  if stub then [ s "func " ++ om_ctor (o_meta o) ++ s "() ( *" ++ om_type (o_meta o) ++ s ") {"; s "panic(""stub"")"; s "}"; [] ]
  else [ s "func " ++ om_ctor (o_meta o) ++ s "() (rootGontainer *" ++ om_type (o_meta o) ++ s ") {" ]
       ++ map (fun l => match l with [] => [] | _ => ch 9 :: l end) (constructor_body n o) ++ [ s "}"; [] ].

Definition dep_note : str := s "// Deprecated: do not use it, only for internal purposes, that method can be changed at any time".
Definition env_missing : str := quote (s "environment variable %+q does not exist").

Definition helper_decls (n : names) (ct : str) : list str :=
  [ dep_note;
    s "func (c *" ++ ct ++ s ") _concatenateChunks(first func() (interface{}, error), chunks ...func() (interface{}, error)) (string, error) {";
    s "r := """""; s "for _, p := range append([]func() (interface{}, error){first}, chunks...) {";
    s "chunk, err := p()"; s "if err != nil {"; s "return """", err"; s "}";
    s "s, err := " ++ n_exporter n ++ s ".CastToString(chunk)"; s "if err != nil {"; s "return """", err"; s "}";
    s "r += s"; s "}"; s "return r, nil"; s "}"; [];
    dep_note;
    s "func (c *" ++ ct ++ s ") _paramTodo(params ...string) (interface{}, error) {";
    s "if len(params) > 0 {"; s "return nil, " ++ n_errors n ++ s ".New(params[0])"; s "}";
    s "return nil, " ++ n_errors n ++ s ".New(""parameter todo"")"; s "}"; [];
    dep_note;
    s "func (c *" ++ ct ++ s ") _getEnv(key string, def ...string) (string, error) {";
    s "val, ok := " ++ n_os n ++ s ".LookupEnv(key)"; s "if !ok {"; s "if len(def) > 0 {"; s "return def[0], nil"; s "}";
    s "return """", " ++ n_fmt n ++ s ".Errorf(" ++ env_missing ++ s ", key)"; s "}"; s "return val, nil"; s "}"; [];
    dep_note;
    s "func (c *" ++ ct ++ s ") _getEnvInt(key string, def ...int) (int, error) {";
    s "val, ok := " ++ n_os n ++ s ".LookupEnv(key)"; s "if !ok {"; s "if len(def) > 0 {"; s "return def[0], nil"; s "}";
    s "return 0, " ++ n_fmt n ++ s ".Errorf(" ++ env_missing ++ s ", key)"; s "}";
    s "res, err := " ++ n_strconv n ++ s ".Atoi(val)"; s "if err != nil {";
    s "return 0, " ++ n_fmt n ++ s ".Errorf(""cannot cast env(%+q) to int: %w"", key, err)"; s "}"; s "return res, nil"; s "}"; [];
    dep_note;
    s "func (c *" ++ ct ++ s ") _callProvider(provider interface{}, args ...interface{}) (interface{}, error) {";
    s "return " ++ n_caller n ++ s ".CallProvider(provider, args, true)"; s "}" ].

Definition body_lines (stub : bool) (o : output) (n : names) : list str :=
  let ct := om_type (o_meta o) in
  (if stub then [] else params_comment (o_params o) ++ [[]] ++ services_comment o ++ [[]]) ++
  [ s "type " ++ ct ++ s " struct {"; s "*" ++ n_container n ++ s ".Container"; s "}"; [] ] ++
  init_decl n o ++
  flat_map (print_method ct) (all_getter_methods stub n o) ++
  constructor_decl stub n o ++
  (if stub then [] else helper_decls n ct).

Definition head_lines (stub : bool) (build_info : str) (o : output) (i : ist) : list str :=
  (if stub then [ s "//go:build gontainerstub"; s "// +build gontainerstub"; [] ] else []) ++
  [ s "// Code generated by https://github.com/gontainer/gontainer; DO NOT EDIT."; [];
    s "package " ++ om_pkg (o_meta o); [];
    s "// gontainer version: " ++ build_info; [];
    s "import (" ] ++
  map (fun kv => snd kv ++ s " """ ++ fst kv ++ s """") (imports_sorted i) ++
  [ s ")"; [] ].

(** template.Builder.Build before formatting: the text handed to go/format, and the final alias table *)
Definition render (stub : bool) (build_info : str) (o : output) (i : ist) : list str * ist :=
  let '(n, i1) := body_names stub o i in
  (head_lines stub build_info o i1 ++ body_lines stub o n, i1).

End WithEnv.
