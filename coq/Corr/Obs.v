(** Helpers to print model observations one per line in a form the harness can parse back exactly. *)
From GV Require Import Base.Str.

(** escape to printable ASCII without double quotes or backslashes: \xNN for everything else *)
Definition esc_char (c : ascii) : str :=
  let n := code c in
  if (N.leb 32 n && N.leb n 126 && negb (N.eqb n 34) && negb (N.eqb n 92))%bool then [c]
  else s "\x" ++ hex_fixed 2 n.
Definition esc (x : str) : string := to_string (flat_map esc_char x).
Definition esc_opt (x : option str) : string :=
  match x with None => "-"%string | Some v => String "+"%char (esc v) end.
