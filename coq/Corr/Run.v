(** Executable top level used by the correspondence check: run the model on a harness case and produce every
    observable as canonical lines (a line = list of byte-string fields). *)
From GV Require Import Base.Str Base.Quote Base.Gerr Base.Sort Regex.Re Model.Env Model.Input Model.Merge Model.Imports
  Model.Token Model.Compile Model.Validate Model.OutVal Model.Runner Model.Render Gen.EnvGen Corr.Obs.
From Coq Require Import Uint63.

Definition E := the_env.

Record case := { c_B : str; c_flags : flags; c_world : world; c_outfile : str; c_build_info : str }.

Definition line := list str.
Definition jl (l : list str) : str := join (s ",") l.

Definition show_prim (p : prim) : str :=
  match p with
  | PNil => s "nil"
  | PBool b => if b then s "bool:true" else s "bool:false"
  | PInt k t => k ++ s ":" ++ t
  | PFloat k t => k ++ s ":" ++ t
  | PStr x => s "str:" ++ x
  | POther t => s "other:" ++ t
  end.

Definition show_arg (tag : str) (a : arg) : line :=
  [tag; a_code a; show_prim (a_raw a); jl (a_params a); jl (a_services a); jl (a_tags a)].

Definition show_scope (sc : oscope) : str :=
  match sc with OScDefault => s "0" | OScShared => s "1" | OScContextual => s "2" | OScNonShared => s "3" end.
Definition show_bool (b : bool) : str := if b then s "true" else s "false".

Definition show_service (sv : oservice) : list line :=
  [s "service"; os_name sv; os_getter sv; show_bool (os_must_getter sv); os_type sv; os_value sv;
   os_constructor sv; show_scope (os_scope sv); show_bool (os_todo sv)]
  :: map (show_arg (s "sarg")) (os_args sv)
  ++ flat_map (fun c => [s "call"; oc_method c; show_bool (oc_immutable c)] :: map (show_arg (s "carg")) (oc_args c)) (os_calls sv)
  ++ map (fun f => s "field" :: fst f :: show_arg (s "farg") (snd f)) (os_fields sv)
  ++ map (fun t => [s "tag"; t_name t; dec_of_Z (t_prio t)]) (os_tags sv).

Definition show_output (o : output) : list line :=
  [s "meta"; om_pkg (o_meta o); om_type (o_meta o); om_ctor (o_meta o)]
  :: map (fun p => [s "param"; op_name p; op_code p; show_prim (op_raw p); jl (op_depends p)]) (o_params o)
  ++ flat_map show_service (o_services o)
  ++ flat_map (fun d => [s "decorator"; od_tag d; od_decorator d; od_raw d] :: map (show_arg (s "darg")) (od_args d)) (o_decorators o).

Definition show_imports (i : ist) : list line :=
  map (fun kv => [s "import"; snd kv; fst kv]) (imports_sorted i).

Definition observe_run (c : case) : list line :=
  match run E (c_B c) (c_flags c) (c_world c) (c_outfile c) with
  | Panic m => [[s "panic"; m]]
  | Ok oc =>
    [s "exit"; dec_of_N (N.of_nat (oc_exit oc))]
    :: [s "wrote"; show_bool (oc_wrote oc)]
    :: map (fun l => [s "out"; l]) (flat_map (split_on "010"%char) (oc_stdout oc))
    ++ map (fun l => [s "err"; l]) (oc_errors oc)
  end.

(** everything for one case: the run, then the compiled output and alias table at the end of the run *)
Definition observe (c : case) : list line :=
  observe_run c ++
  (match run E (c_B c) (c_flags c) (c_world c) (c_outfile c) with
   | Ok oc => [s "front"] :: (show_output (x_output (oc_state oc)) ++ show_imports (cs_imports (x_cst (oc_state oc))))
   | Panic _ => []
   end).

(** the text handed to go/format when the run gets that far (the harness pipes it through the real formatter and
    compares the result with the bytes of the -o file) *)
Definition render_text (c : case) : list string :=
  (match run E (c_B c) (c_flags c) (c_world c) (c_outfile c) with
   | Ok oc => if oc_wrote oc
              then map esc (fst (render E (f_stub (c_flags c)) (c_build_info c) (x_output (oc_state oc)) (cs_imports (x_cst (oc_state oc)))))
              else []
   | Panic _ => []
   end) ++ ["====="%string].

(** printable form, one string per line, plus an end marker *)
Definition sep : string := "\|"%string.
Definition render (l : list line) : list string := map (fun f => String.concat sep (map esc f)) l ++ ["====="%string].
Definition observe_text (c : case) : list string := render (observe c).

(** ** cheap comparison: a 63-bit hash over all fields (the harness computes the same hash over the real observation
    and asks for the text only where the hashes differ).  Primitive integers are used here only, never in a theorem. *)
Definition int_of_ascii (c : ascii) : int :=
  let '(Ascii b0 b1 b2 b3 b4 b5 b6 b7) := c in
  ((if b0 then 1 else 0) + (if b1 then 2 else 0) + (if b2 then 4 else 0) + (if b3 then 8 else 0) +
   (if b4 then 16 else 0) + (if b5 then 32 else 0) + (if b6 then 64 else 0) + (if b7 then 128 else 0))%uint63.
Definition hstep (h : int) (c : ascii) : int := (h * 31 + int_of_ascii c + 1)%uint63.
Definition hash_field (h : int) (x : str) : int := fold_left hstep x (h * 31 + 300)%uint63.
Definition hash_line (h : int) (l : line) : int := fold_left hash_field l (h * 31 + 400)%uint63.
Definition hash_lines (l : list line) : int := fold_left hash_line l 7%uint63.
Definition observe_hash (c : case) : int := hash_lines (observe c).
