(** Correspondence for the run-time properties: the model's result of a probe history on the container generated from a case. *)
From GV Require Import Base.Str Model.Env Model.Input Model.Compile Model.Runner Runtime.RT Runtime.Load Runtime.Show Gen.EnvGen Corr.Obs Corr.Run.

Definition observe_rt (c : case) (envv : list (str * str)) (ops : list op) : list string :=
  (match run E (c_B c) (c_flags c) (c_world c) (c_outfile c) with
   | Ok oc =>
     if oc_wrote oc
     then map show_result (snd (run_ops (load E (x_output (oc_state oc)) (x_cst (oc_state oc)) envv) ops))
     else ["rejected"%string]
   | Panic _ => ["panic"%string]
   end) ++ ["====="%string].
